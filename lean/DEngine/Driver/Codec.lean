import DEngine.Model.Proto
import DEngine.Model.Codec
open DEngine DEngine.Proto DEngine.Codec

/-! Driver of family `codec` (see harness/src/bin/codec.rs for the case grammar). -/

def optBytes (s : String) : Option (Option Bytes) :=
  if s == "_" then some none else (hexBytes s).map some

def u64? (s : String) : Option UInt64 := do
  let n ← s.toNat?
  if n < 2 ^ 64 then some (UInt64.ofNat n) else none

def parseOp (body : String) : Option WriteOp :=
  match body.splitOn ":" with
  | ["put", k, v, t] => do
      let ttl ← if t == "_" then pure none else (u64? t).map some
      pure (.insert (← hexBytes k) (← hexBytes v) ttl)
  | ["del", k] => do pure (.delete (← hexBytes k))
  | ["cas", k, e, v] => do pure (.cas (← hexBytes k) (← optBytes e) (← hexBytes v))
  | _ => none

def parseWc (body : String) : Option WriteCommand :=
  match body.splitOn ":" with
  | ["put", k, v, t] => do pure ⟨some (.insert { key := ← hexBytes k, value := ← hexBytes v, ttlSecs := ← u64? t })⟩
  | ["del", k] => do pure ⟨some (.delete { key := ← hexBytes k })⟩
  | ["cas", k, e, v] => do pure ⟨some (.cas { key := ← hexBytes k, expected := ← optBytes e, newValue := ← hexBytes v })⟩
  | ["none"] => some ⟨none⟩
  | _ => none

def showOptB : Option Bytes → String
  | none => "_"
  | some b => showHex b

def showTtl : Option UInt64 → String
  | none => "_"
  | some t => toString t.toNat

def showCmd : Command → String
  | .noop => "noop"
  | .insert k v t => s!"put:{showHex k}:{showHex v}:{showTtl t}"
  | .delete k => s!"del:{showHex k}"
  | .cas k e v => s!"cas:{showHex k}:{showOptB e}:{showHex v}"

def showOp : WriteOp → String
  | .insert k v t => s!"put:{showHex k}:{showHex v}:{showTtl t}"
  | .delete k => s!"del:{showHex k}"
  | .cas k e v => s!"cas:{showHex k}:{showOptB e}:{showHex v}"

def showDecoded (bs : Bytes) : String :=
  match decodeEntryCommand bs with
  | some c => "cmd=" ++ showCmd c
  | none => "err"

def chain (op : WriteOp) : String :=
  let bs := encodeEntryPayload op
  s!"bytes={showHex bs} {showDecoded bs}"

def splitCase (line : String) : Option (String × String) :=
  match line.splitOn "|" with
  | [k, b] => some (k, b)
  | _ => none

def opTags : WriteOp → List String
  | .insert k v t =>
    ["put"] ++ (if k.isEmpty then ["empty-key"] else []) ++ (if v.isEmpty then ["empty-value"] else []) ++
    (match t with
     | none => ["ttl-none"]
     | some x => if x = 0 then ["ttl-some-zero"] else if x.toNat ≥ 2 ^ 63 then ["ttl-10-byte-varint"] else ["ttl-some"]) ++
    (if k.length ≥ 128 || v.length ≥ 128 then ["long-length-varint"] else [])
  | .delete k => ["del"] ++ (if k.isEmpty then ["empty-key"] else [])
  | .cas k e v =>
    ["cas"] ++ (if k.isEmpty then ["empty-key"] else []) ++ (if v.isEmpty then ["empty-value"] else []) ++
    (match e with
     | none => ["expected-none"]
     | some x => if x.isEmpty then ["expected-some-empty"] else ["expected-some"])

def modelLine (line : String) : String :=
  match splitCase line with
  | some ("op", body) =>
    match parseOp body with
    | some op => chain op ++ "\t" ++ ",".intercalate (opTags op)
    | none => "bad-case\t-"
  | some ("wc", body) =>
    match parseWc body with
    | some wc =>
      match writeCommandToOp wc with
      | none => "panic\twc-none-unreachable"
      | some op => s!"op={showOp op} {chain op}\t" ++ ",".intercalate ("grpc" :: opTags op)
    | none => "bad-case\t-"
  | some ("raw", body) =>
    match hexBytes body with
    | some bs =>
      let out := showDecoded bs
      out ++ "\t" ++ (if out == "err" then "raw-err" else "raw-ok")
    | none => "bad-case\t-"
  | _ => "bad-case\t-"

/-- impl output → the `cmd=` part, or `err` -/
def implCmd (out : String) : Option String :=
  let toks := out.splitOn " "
  match toks.find? (fun t => t.startsWith "cmd=") with
  | some t => some ((t.drop 4).toString)
  | none => if toks.contains "err" then some "err" else none

def diffSig (expected got : String) : String :=
  if got == "err" then "decode-error" else
  let e := expected.splitOn ":"
  let g := got.splitOn ":"
  if e.head? != g.head? || e.length != g.length then "kind-changed" else
  match e.head? with
  | some "put" =>
    if e[1]? != g[1]? then "key-changed" else if e[2]? != g[2]? then "value-changed" else "ttl-changed"
  | some "del" => "key-changed"
  | some "cas" =>
    if e[1]? != g[1]? then "key-changed" else if e[2]? != g[2]? then "expected-changed" else "value-changed"
  | _ => "kind-changed"

/-- C37 on the implementation's output: the decoded command equals the submitted operation
    (`expectedCommand`: TTL under the documented 0 = no-expiration convention). -/
def monitorC37 (line : String) (out : String) : String :=
  match splitCase line with
  | some ("op", body) =>
    match parseOp body with
    | some op =>
      match implCmd out with
      | some got =>
        let exp := showCmd (expectedCommand op)
        if got == exp then "ok" else "bad " ++ diffSig exp got
      | none => "bad no-command-in-output"
    | none => "bad-case"
  | some ("wc", body) =>
    match parseWc body with
    | some wc =>
      match toCommand wc with
      | none => "skip"
      | some c =>
        match implCmd out with
        | some got => if got == showCmd c then "ok" else "bad grpc-" ++ diffSig (showCmd c) got
        | none => "bad no-command-in-output"
    | none => "bad-case"
  | some ("raw", _) => "skip"
  | _ => "bad-case"

def monitorLine (prop : String) (line : String) : String :=
  match line.splitOn "\t" with
  | [case, out] => if prop == "C37" then monitorC37 case out else "skip"
  | _ => "bad-line"

def main (args : List String) : IO UInt32 := do
  let stdin ← IO.getStdin
  let stdout ← IO.getStdout
  match args with
  | ["model"] => loop stdin stdout modelLine; return 0
  | ["monitor", p] => loop stdin stdout (monitorLine p); return 0
  | _ => IO.eprintln "usage: drv_codec model | monitor <prop>"; return 2
