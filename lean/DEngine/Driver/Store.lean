import DEngine.Model.Proto
import DEngine.Model.LogStore
open DEngine DEngine.Proto DEngine.LogStore

/-! Driver of family `store` (C20). Case / output format: see harness/src/bin/store.rs. -/

def parseEnt (s : String) : Option Ent :=
  match s.splitOn ":" with
  | [i, t, g] => do pure { idx := ← i.toNat?, term := ← t.toNat?, tag := ← g.toNat? }
  | _ => none

def parseEnts (s : String) : Option (List Ent) :=
  if s.isEmpty || s == "-" then some [] else (s.splitOn ",").mapM parseEnt

def showEnt (e : Ent) : String := s!"{e.idx}:{e.term}:{e.tag}"
def showEnts (es : List Ent) : String := if es.isEmpty then "-" else ",".intercalate (es.map showEnt)

/-- (crash-observed?, op) -/
def parseOp (s0 : String) : Option (Bool × Op) :=
  let (c, s) := if s0.startsWith "c" then (true, (s0.drop 1).toString) else (false, s0)
  let k := (s.take 1).toString
  let arg := (s.drop 1).toString
  (fun o => (c, o)) <$>
  (if k == "p" then Op.persist <$> parseEnts arg
   else if k == "t" then Op.truncate <$> arg.toNat?
   else if k == "r" then
     match arg.splitOn "/" with
     | [f, es] => do pure (Op.replace (← f.toNat?) (← parseEnts es))
     | _ => none
   else if k == "g" then
     match arg.splitOn ":" with
     | [i, t] => do pure (Op.purge (← i.toNat?) (← t.toNat?))
     | _ => none
   else if s == "z" then some Op.reset
   else if s == "f" then some Op.flush
   else if s == "o" then some Op.reopen
   else if s == "k" then some Op.crash
   else none)

def parseCase (line : String) : Option (String × List (Bool × Op)) :=
  match line.splitOn "|" with
  | [head, ops] => do
    let os ← ((ops.splitOn ";").filter (· ≠ "")).mapM parseOp
    pure (head, os)
  | _ => none

def showBoundary : Option (Nat × Nat) → String
  | none => "-"
  | some (i, t) => s!"{i}:{t}"

def imageStr (recs : List Ent) : String :=
  let l := loadRecs recs
  s!"{showEnts l.entries}/{l.last}"

def fileObs (s : FileStore) (crash : Bool) (pts : List (String × List Ent)) : String :=
  if s.hole then "unmodelled" else
  s!"{s.last} {showEnts s.entries} {showBoundary s.boundary} buffered ok disk={showEnts s.recs} dur={imageStr s.dur} re={imageStr s.recs}" ++
  (if crash then " {" ++ ",".intercalate (pts.map fun p => s!"{p.1}>{imageStr p.2}") ++ "}" else "")

def rocksObs (s : RocksStore) : String :=
  s!"{s.last} {showEnts s.db} {showBoundary s.boundary} buffered ok"

def opTag : Op → String
  | .persist _ => "persist" | .truncate _ => "truncate" | .replace _ _ => "replace" | .purge _ _ => "purge"
  | .reset => "reset" | .flush => "flush" | .reopen => "reopen" | .crash => "crash"

/-- Branch tags of one step, judged on the reference state before the op. -/
def stepTags (r : Ref) (op : Op) : List String :=
  [opTag op] ++
  (if contract r op then (if appendOnly r op then [] else ["rewriting-persist"]) else ["outside-contract"]) ++
  (match op with
   | .persist es => (if es.any (fun e => hasKey r.m e.idx) then ["overwrite"] else []) ++
                    (if !es.isEmpty && batchMax es < maxKey r.m then ["lower-persist"] else [])
   | .purge i _ => if !r.m.isEmpty && i ≥ maxKey r.m then ["purge-all"] else []
   | _ => [])

def modelFile (ops : List (Bool × Op)) : String × List String :=
  let rec go (s : FileStore) (r : Ref) : List (Bool × Op) → List String × List String
    | [] => ([], [])
    | (c, op) :: rest =>
      let s' := s.step op
      let dead := s.hole   -- once unmodelled, stays unmodelled
      let s'' := if dead then { s' with hole := true } else s'
      let (os, ts) := go s'' (r.step op) rest
      (fileObs s'' c (s.crashPoints op) :: os,
       stepTags r op ++ (if c then ["crash-points"] else []) ++ (if s''.hole then ["hole"] else []) ++ ts)
  let (os, ts) := go FileStore.empty Ref.empty ops
  (";".intercalate os, ts.eraseDups)

def modelRocks (ops : List (Bool × Op)) : String × List String :=
  let rec go (s : RocksStore) (r : Ref) : List (Bool × Op) → List String × List String
    | [] => ([], [])
    | (_, op) :: rest =>
      let s' := s.step op
      let (os, ts) := go s' (r.step op) rest
      (rocksObs s' :: os, stepTags r op ++ ts)
  let (os, ts) := go RocksStore.empty Ref.empty ops
  (";".intercalate os, ("rocks" :: ts).eraseDups)

def modelLine (line : String) : String :=
  match parseCase line with
  | none => "bad-case\t-"
  | some (head, ops) =>
    let (o, ts) := if head == "eng=file" then modelFile ops else if head == "eng=rocks" then modelRocks ops else ("bad-case", [])
    s!"{o}\t{",".intercalate ts}"

/-! ### Monitor C20: the implementation's observations against the reference store -/

structure Obs where
  last : String
  entries : String
  boundary : String
  durable : String
  lookup : String
  disk : Option String
  dur : Option String
  re : Option String
  images : List (String × String)    -- (hook name, entries of the reopened image)

def parseObs (s : String) : Option Obs :=
  match s.splitOn " " with
  | last :: entries :: boundary :: durable :: lookup :: rest =>
    let find (pre : String) := (rest.find? (·.startsWith pre)).map fun x => (x.drop pre.length).toString
    let imgs := match rest.find? (·.startsWith "{") with
      | none => []
      | some b =>
        let inner := ((b.drop 1).toString.dropEnd 1).toString
        if inner.isEmpty then [] else
        (inner.splitOn ",").foldl (fun (acc : List (String × String)) (part : String) =>
          -- entries contain commas: a part without '>' continues the previous image
          match part.splitOn ">" with
          | [n, v] => acc ++ [(n, v)]
          | _ => match acc.reverse with
            | (n, v) :: r => r.reverse ++ [(n, v ++ "," ++ part)]
            | [] => acc) []
    some { last, entries, boundary, durable, lookup, disk := find "disk=", dur := find "dur=", re := find "re=",
           images := imgs.map fun ((n, v) : String × String) => (n, ((v.splitOn "/").headD "")) }
  | _ => none

def judgeOp (eng : String) (rBefore rAfter : Ref) (op : Op) (cleanBefore : Bool) (o : Obs) : Option String :=
  let want := showEnts rAfter.m
  let isFile := eng == "eng=file"
  if o.lookup != "ok" then some "entry-lookup-inconsistent"
  else if o.durable != "buffered" then some "claims-write-durable-without-sync"
  else if o.entries != want then
    some (match op with
      | .reopen | .crash => if isFile then "file-reopen-entries-differ" else "rocks-reopen-entries-differ"
      | _ => "entries-differ-from-reference")
  else if o.last != toString rAfter.last then some "last-index-not-max-key"
  -- a store opened on the file as it is now must show the live entries (F19b shows up here first)
  else if isFile && o.re.isSome && o.re != some s!"{want}/{rAfter.last}" then some "file-reopen-entries-differ"
  else
    -- crash images (only judged when the file was clean before the op, i.e. held exactly the reference map)
    let old := showEnts rBefore.m
    let bad := if !cleanBefore then [] else o.images.filter fun ((_, v) : String × String) =>
      match op with
      | .persist es => !((List.range (es.length + 1)).any fun k => v == showEnts (insertAll rBefore.m (es.take k)))
      | _ => v != old && v != want
    match bad.head?, op with
    | some _, .persist _ => some "persist-crash-image-not-a-prefix"
    | some _, .replace _ _ => some "replace-range-not-crash-atomic"
    | some _, .purge _ _ => some "purge-not-crash-atomic"
    | some _, _ => some "crash-image-neither-old-nor-new"
    | none, _ =>
      if o.boundary != showBoundary rAfter.boundary then some "purge-boundary-not-reported"
      else if isFile && op == .flush && o.dur != some s!"{want}/{rAfter.last}" then some "flush-not-durable"
      else none

def monitorC20 (case out : String) : String :=
  match parseCase case with
  | none => "bad-case"
  | some (head, ops) =>
    if out == "bad-case" || out == "panic" || out == "open-err" then s!"bad {out}" else
    let segs := out.splitOn ";"
    if segs.length != ops.length then "bad shape-mismatch" else
    let rec go (r : Ref) (clean : Bool) (judged : Nat) : List ((Bool × Op) × String) → String
      | [] => if judged == 0 then "skip" else "ok"
      | ((_, op), seg) :: rest =>
        if !contract r op then (if judged == 0 then "skip" else "ok") else
        if seg == "unmodelled" then (if judged == 0 then "skip" else "ok") else
        let r' := r.step op
        if seg.startsWith "op-err" then "bad op-failed" else
        match parseObs seg with
        | none => "bad unparsable-observation"
        | some o =>
          match judgeOp head r r' op clean o with
          | some sig => s!"bad {sig}"
          | none =>
            let clean' := match o.disk with | some d => d == showEnts r'.m | none => true
            go r' clean' (judged + 1) rest
    go Ref.empty true 0 (List.zip ops segs)

def monitorLine (prop : String) (line : String) : String :=
  match line.splitOn "\t" with
  | [case, out] => if prop == "C20" then monitorC20 case out else "skip"
  | _ => "bad-line"

def main (args : List String) : IO UInt32 := do
  let stdin ← IO.getStdin
  let stdout ← IO.getStdout
  match args with
  | ["model"] => loop stdin stdout modelLine; return 0
  | ["monitor", p] => loop stdin stdout (monitorLine p); return 0
  | _ => IO.eprintln "usage: drv_store model | monitor <prop>"; return 2
