import DEngine.Model.Proto
import DEngine.Model.Elect
import DEngine.Model.ElectCluster
import DEngine.Model.ElectMon
open DEngine DEngine.Proto DEngine.Elect

def main (args : List String) : IO UInt32 := do
  let stdin ← IO.getStdin
  let stdout ← IO.getStdout
  match args with
  | ["model"] => loop stdin stdout modelLine; return 0
  | ["monitor", p] => loop stdin stdout (monitorLine p); return 0
  | _ => IO.eprintln "usage: drv_elect model | monitor <prop>"; return 2
