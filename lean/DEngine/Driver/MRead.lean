import DEngine.Model.Proto
import DEngine.Model.MRead
open DEngine DEngine.Proto DEngine.MRead

/-! Driver of family `mread` (see harness/src/bin/mread.rs). -/

inductive Op where
  | put (k v : Bytes)
  | del (k : Bytes)
  | read (keys : List Bytes)

def parseOp (t : String) : Option Op :=
  match t.splitOn ":" with
  | ["p", k, v] => do pure (.put (← hexBytes k) (← hexBytes v))
  | ["d", k] => do pure (.del (← hexBytes k))
  | ["R", ks] => if ks.isEmpty then some (.read []) else do pure (.read (← (ks.splitOn ",").mapM hexBytes))
  | _ => none

def parseCase (line : String) : Option (List Op) :=
  let body := (line.splitOn "|").getLast?.getD ""
  ((body.splitOn ";").filter (fun t => !t.isEmpty)).mapM parseOp

def showAligned : Option (List (Option Bytes)) → String
  | none => "err"
  | some [] => "."
  | some l => ",".intercalate (l.map fun | none => "_" | some b => showHex b)

def showSparse (l : List (Bytes × Bytes)) : String :=
  if l.isEmpty then "." else ",".intercalate (l.map fun e => showHex e.1 ++ ":" ++ showHex e.2)

def group (st : St) (keys : List Bytes) : String :=
  let e := some (engineGetMulti st keys)
  s!"ef={showAligned e} er={showAligned e} smh={showSparse (readFromSm st keys)} " ++
  s!"fpr={showSparse (fastPathResp keys (engineGetMulti st keys))} " ++
  s!"embf={showAligned (getMulti .embFast st keys)} embl={showAligned (getMulti .embFast st keys)} " ++
  s!"embc={showAligned (getMulti .embCmd st keys)} gf={showAligned (getMulti .grpcFast st keys)} " ++
  s!"gl={showAligned (getMulti .grpcFast st keys)} gc={showAligned (getMulti .grpcCmd st keys)}"

def run (ops : List Op) : List String × List String :=
  let step (acc : St × List String × List String) (op : Op) : St × List String × List String :=
    let (st, gs, tags) := acc
    match op with
    | .put k v => (put st k v, gs, if v.isEmpty then tags ++ ["empty-value"] else tags)
    | .del k => (del st k, gs, tags)
    | .read keys =>
      let t1 := if keys.isEmpty then ["no-keys"] else []
      let t2 := if keys.eraseDups.length < keys.length then ["duplicate-keys"] else []
      let t3 := if keys.any (fun k => (get st k).isNone) then ["missing-key"] else []
      let t4 := if keys.any (fun k => get st k == some []) then ["present-empty-value"] else []
      let t5 := if keys.all (fun k => (get st k).isNone) && !keys.isEmpty then ["nothing-found"] else []
      (st, gs ++ [group st keys], tags ++ t1 ++ t2 ++ t3 ++ t4 ++ t5)
  let (_, gs, tags) := ops.foldl step ([], [], [])
  (gs, tags.eraseDups)

def modelLine (line : String) : String :=
  match parseCase line with
  | none => "bad-case\t-"
  | some ops =>
    let (gs, tags) := run ops
    (if gs.isEmpty then "-" else " / ".intercalate gs) ++ "\t" ++ (if tags.isEmpty then "-" else ",".intercalate tags)

/-- C35 on the implementation's output: every aligned path returned exactly `keys.map state.get`. -/
def monitorC35 (ops : List Op) (out : String) : String :=
  let reads := (ops.foldl (fun (acc : St × List (St × List Bytes)) op =>
    match op with
    | .put k v => (put acc.1 k v, acc.2)
    | .del k => (del acc.1 k, acc.2)
    | .read keys => (acc.1, acc.2 ++ [(acc.1, keys)])) ([], [])).2
  if reads.isEmpty then "skip" else
  let groups := if out == "-" then [] else out.splitOn " / "
  if groups.length != reads.length then "bad output-format" else
  let bad := (groups.zip reads).filterMap fun (g, (st, keys)) =>
    let fs := fields g
    let expected := showAligned (some (keys.map (get st)))
    ["ef", "er", "embf", "embl", "embc", "gf", "gl", "gc"].findSome? fun p =>
      match lookup fs p with
      | none => some (p ++ "-missing")
      | some got =>
        if got == expected then none
        else if got == "err" && keys.isEmpty && p.startsWith "g" then none
        else if got == "err" then some (p ++ "-error")
        else if (got.splitOn ",").length != keys.length && !(keys.isEmpty) then some (p ++ "-wrong-length")
        else some (p ++ "-misaligned")
  match bad with
  | [] => "ok"
  | b :: _ => "bad " ++ b

def monitorLine (prop : String) (line : String) : String :=
  match line.splitOn "\t" with
  | [case, out] =>
    match parseCase case with
    | none => "bad-case"
    | some ops => if prop == "C35" then monitorC35 ops out else "skip"
  | _ => "bad-line"

def main (args : List String) : IO UInt32 := do
  let stdin ← IO.getStdin
  let stdout ← IO.getStdout
  match args with
  | ["model"] => loop stdin stdout modelLine; return 0
  | ["monitor", p] => loop stdin stdout (monitorLine p); return 0
  | _ => IO.eprintln "usage: drv_mread model | monitor <prop>"; return 2
