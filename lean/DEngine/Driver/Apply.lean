import DEngine.Model.Proto
import DEngine.Model.Apply
/-!
Driver of the `apply` family (C06).  Case: `mb=<n>|op;op;…` — see harness/src/bin/apply.rs.
`p` = the commit-handler task runs until its channel is empty = `run1` repeated, then the worker's `fetch`;
`w` = `apply` then `fetch`; `r` = `restart`; `s:<S>` = `snap S`; after the last op the worker drains its
queue (`apply`/`fetch` repeated).
-/
open DEngine DEngine.Proto DEngine.Apply

namespace DEngine.ApplyDrv

def parseCmdTok (f : List String) : Option Payload :=
  match f with
  | ["p", k, v] => do pure (.cmd (.put (← k.toNat?) (← v.toNat?)))
  | ["d", k] => do pure (.cmd (.del (← k.toNat?)))
  | ["c", k, e, v] => do
      let e' ← if e == "n" then some none else e.toNat?.map some
      pure (.cmd (.cas (← k.toNat?) e' (← v.toNat?)))
  | ["n"] => some .noop
  | ["g1"] => some (.config true)
  | ["g0"] => some (.config false)
  | ["b"] => some .bad
  | ["e"] => some .empty
  | _ => none

def parsePayload (t : String) : Option Payload := parseCmdTok (t.splitOn ".")

/-- Harness-level ops (`p` is a macro over `run1`). -/
inductive HOp where
  | a (p : Payload) | c (n : Nat) | p | w | r | s (n : Nat)

def parseOp (t : String) : Option HOp :=
  match t.splitOn ":" with
  | ["a", x] => (parsePayload x).map .a
  | ["c", n] => n.toNat?.map .c
  | ["p"] => some .p
  | ["w"] => some .w
  | ["r"] => some .r
  | ["s", n] => n.toNat?.map .s
  | _ => none

def parseCase (line : String) : Option (Nat × List HOp) :=
  match line.splitOn "|" with
  | [head, body] => do
      let mb ← natField (fields head) "mb"
      let ops ← ((body.splitOn ";").filter (· ≠ "")).mapM parseOp
      pure (mb, ops)
  | _ => none

def showCmd : Cmd → String
  | .put k v => s!"p.{k}.{v}"
  | .del k => s!"d.{k}"
  | .cas k e v => s!"c.{k}.{match e with | none => "n" | some x => toString x}.{v}"

def showACmd : ACmd → String
  | .noop => "n"
  | .op c => showCmd c
  | .snap => "S"

def joinOr (l : List String) (sep : String) : String := if l.isEmpty then "-" else sep.intercalate l

/-- Repeat `f` n times. -/
def iter {α} (f : α → α) : Nat → α → α
  | 0, x => x
  | n + 1, x => iter f n (f x)

/-- Harness ops as schedules of model ops.  The harness's worker task runs whenever it can and stops only
    at the state-machine gate, so every `p` and `w` is followed by the worker's `fetch`. -/
def hops (s : St) : HOp → List Op
  | .a p => [.append p]
  | .c n => [.commit n]
  | .p => List.replicate s.notif.length .run1 ++ [.fetch]
  | .w => [.apply, .fetch]
  | .r => [.restart]
  | .s n => [.snap n]

/-- The harness refuses a snapshot of a prefix that does not exist or does not decode. -/
def snapValid (s : St) (n : Nat) : Bool :=
  n != 0 && n ≤ s.log.length && (s.log.take n).all (fun p => !isBad p)

def hstep (mb : Nat) (s : St) (op : HOp) : St := exec mb s (hops s op)

/-- Branch tags of one harness op (decisions taken by the model). -/
def tagsOf (mb : Nat) (s : St) (op : HOp) : List String :=
  match op with
  | .a p => match p with
      | .bad => ["append:bad"] | .empty => ["append:empty"] | .config false => ["append:cfg-fail"] | _ => []
  | .c n => if n ≤ s.pending then ["commit:stale"] else if n > s.log.length then ["commit:beyond-log"] else []
  | .r => ["restart"] ++ (if s.queue.isEmpty then [] else ["restart:queue-lost"])
  | .s n => ["snapshot"] ++
      (if s.holding.isSome || !s.queue.isEmpty then ["snapshot:batches-in-flight"] else []) ++
      (if n < s.smLast then ["snapshot:behind-applied"] else [])
  | .w =>
      if s.workerDead then ["work:dead"] else
      match s.holding with
      | none => ["work:idle"]
      | some b => ["work:apply"] ++ (if b.length > 1 then ["work:multi"] else []) ++
          (match s.queue with
           | [] => []
           | b2 :: _ => if b2.any (fun e => isBad e.2) then ["work:next-decode-fail"] else ["work:next-fetched"])
  | .p =>
      if s.notif.isEmpty then ["run:idle"] else
      let s1 := { s with pending := s.notif.foldl updatePending s.pending }
      let t0 := (if s.notif.length > 1 ∧ mb > 1 then ["run:drain>1"] else []) ++
                (if s.notif.length > mb ∧ mb > 0 then ["run:multi-iter"] else [])
      let s2 := hstep mb s .p
      let t1 :=
        if s1.pending ≤ s1.lastApplied then ["pb:nothing-pending"]
        else if max (s1.lastApplied + 1) (s1.dispatched + 1) > s1.pending then ["pb:all-dispatched"]
        else
          let es := entriesFrom s1.log s1.base (max (s1.lastApplied + 1) (s1.dispatched + 1)) s1.pending
          (if s1.dispatched > s1.lastApplied then ["pb:skip-dispatched"] else []) ++
          (if es.isEmpty then ["pb:no-entries"] else ["pb:dispatch"]) ++
          (if es.any (fun e => e.2 == .empty) then ["pb:skip-empty-payload"] else []) ++
          (if es.any (fun e => match e.2 with | .config _ => true | _ => false) then ["pb:config"] else []) ++
          (if es.any (fun e => e.2 == .noop) then ["pb:noop-flush"] else []) ++
          (if es.any (fun e => e.2 == .config false) then ["pb:cfg-error"] else [])
      if s.workerDead then ["run:worker-gone"] else
      t0 ++ t1 ++ (if s2.queue.length > s.queue.length + 1 then ["pb:multi-batch"] else []) ++
      (if s2.workerDead then ["work:decode-fail"] else [])

def showChunk (c : List Nat) : String :=
  if c.head? == some 0 then s!"S{c.getLast?.getD 0}" else s!"{c.head?.getD 0}-{c.getLast?.getD 0}"

def render (las : List Nat) (s : St) : String :=
  let kv := (s.kv.filter (·.1 < 8)).mergeSort (fun a b => a.1 ≤ b.1)
  s!"la={showNatList las} fla={s.lastApplied} chunks={joinOr (s.chunks.map showChunk) "/"} " ++
  s!"applied={joinOr (s.applied.map fun a => s!"{a.1}:{showACmd a.2}") ","} " ++
  s!"kv={joinOr (kv.map fun a => s!"{a.1}:{a.2}") ","} smla={s.smLast} " ++
  s!"cfg={joinOr (s.cfgCalls.map fun a => s!"{a.1}:{if a.2 then 1 else 0}") ","} " ++
  s!"ac={showNatList ((s.chunks.filter (·.head? != some 0)).map fun c => c.getLast?.getD 0)}"

def runCase (mb : Nat) (ops : List HOp) : String × List String :=
  let (s, las, tags, valid) := ops.foldl (fun (acc : St × List Nat × List String × Bool) op =>
      let (s, las, tags, valid) := acc
      let s' := hstep mb s op
      let v := match op with | .s n => snapValid s n | _ => true
      (s', las ++ [s'.lastApplied], tags ++ tagsOf mb s op, valid && v)) (({} : St), [], [], true)
  let sF := iter (fun x => fetch (applyHeld x)) (s.queue.length + 1) s
  if valid then (render las sF, tags.eraseDups) else ("bad-case", ["bad-snapshot-op"])

def modelLine (line : String) : String :=
  match parseCase line with
  | none => "bad-case\t-"
  | some (mb, ops) =>
    let (o, tags) := runCase mb ops
    s!"{o}\t{joinOr tags ","}"

/-! ### Monitor for C06, evaluated on the implementation's output -/

def parseApplied (s : String) : Option (List (Nat × ACmd)) :=
  if s == "-" then some [] else
  (s.splitOn ",").mapM fun t =>
    match t.splitOn ":" with
    | [i, c] => do
        let i ← i.toNat?
        if c == "S" then pure (i, ACmd.snap) else
        let p ← parsePayload c
        match p with
        | .cmd x => pure (i, ACmd.op x)
        | .noop => pure (i, ACmd.noop)
        | _ => none
    | _ => none

def parseKv (s : String) : Option KV :=
  if s == "-" then some [] else
  (s.splitOn ",").mapM fun t =>
    match t.splitOn ":" with
    | [k, v] => do pure (← k.toNat?, ← v.toNat?)
    | _ => none

def isSortedLe : List Nat → Bool
  | a :: b :: r => a ≤ b && isSortedLe (b :: r)
  | _ => true

/-- Signature of the first out-of-order state-machine input (only called when `walk` fails). -/
def walkSig : Nat → Bool → List (Nat × ACmd) → String
  | _, _, [] => "applied-index-gap"
  | pos, snapped, (i, c) :: rest =>
    match c with
    | .snap => if i < pos then "snapshot-behind-applied" else walkSig i true rest
    | _ =>
      if i == pos + 1 then walkSig i snapped rest
      else if i ≤ pos then
        (if snapped then "stale-batch-applied-after-snapshot" else "applied-index-repeated")
      else "applied-index-gap"

/-- The decidable C06 predicate on an observation: state-machine inputs are in order (each command index =
    previous position + 1, snapshot installs move the position), each is the log's command at that index,
    nothing beyond the highest announced commit index, handler `last_applied` never moves backwards, the
    state machine's `last_applied` is the final position, and the KV content is the fold of the log prefix
    up to that position. -/
def monitorC06 (ops : List HOp) (out : String) : String :=
  let fs := fields out
  match (lookup fs "applied").bind parseApplied, (lookup fs "kv").bind parseKv,
        (lookup fs "la").bind natList, natField fs "fla", natField fs "smla" with
  | some applied, some kv, some las, some fla, some smla =>
    let log : List Payload := ops.filterMap fun | .a p => some p | _ => none
    let maxCommit := ops.foldl (fun m op => match op with | .c n => max m n | .s n => max m n | _ => m) 0
    let hasSnap := ops.any (fun | .s _ => true | _ => false)
    match walk 0 applied with
    | none => s!"bad {walkSig 0 false applied}"
    | some n =>
      if applied.any (fun a => a.2 != ACmd.snap && (log[a.1 - 1]?).map decode != some a.2) then "bad applied-wrong-command"
      else if n > maxCommit then "bad applied-uncommitted"
      else if !isSortedLe las && !hasSnap then "bad last-applied-regressed"
      else if smla != n || (fla != n && !hasSnap) then "bad last-applied-not-last"
      else
        let want := ((log.take n).foldl (fun m p => applyACmd m (decode p)) ([] : KV)).filter (·.1 < 8)
        let want := want.mergeSort (fun a b => a.1 ≤ b.1)
        if want != kv then "bad kv-not-fold-of-committed-prefix" else "ok"
  | _, _, _, _, _ => if out == "bad-case" then "skip" else "bad unparsable-output"

def monitorLine (prop : String) (line : String) : String :=
  match line.splitOn "\t" with
  | [case, out] =>
    match parseCase case with
    | none => "skip"
    | some (_, ops) =>
      if prop == "C06" then
        -- entries without payload (`e`) are outside the property's hypothesis (WfOps)
        if ops.any (fun | .a .empty => true | _ => false) then "skip" else monitorC06 ops out
      else "skip"
  | _ => "bad-line"

end DEngine.ApplyDrv

open DEngine.ApplyDrv in
def main (args : List String) : IO UInt32 := do
  let stdin ← IO.getStdin
  let stdout ← IO.getStdout
  match args with
  | ["model"] => loop stdin stdout modelLine; return 0
  | ["monitor", p] => loop stdin stdout (monitorLine p); return 0
  | _ => IO.eprintln "usage: drv_apply model | monitor <prop>"; return 2
