import DEngine.Model.Proto
import DEngine.Model.Snap
/-
  Driver of family `snap` (C16).
  case   : `eng=<file|rocks> ret=<retained_log_entries> pb=<entries the follower applied before>|e;e;snap;e…`
           entry `e` = `<term>/<cmd>` with cmd: put,k,v,ttl|-  del,k  cas,k,exp|-,new  noop
           `snap` = the leader calls create_snapshot here (first occurrence counts)
           optional header field `adv=<secs>`: after the replay the clock advances and both nodes run the
           lease cleanup before their contents are compared
  output : `label=<i>.<t> inst=<kv> ila=<i>.<t> il=<lease of b after install> sl=<lease in the snapshot> b=<kv> bla=<i>.<t> a=<kv> ala=<i>.<t>`   (or `nosnap a=<kv> ala=…`)
-/
open DEngine DEngine.Proto DEngine.MiniKv DEngine.Snap

def parseCmd (s : String) : Option Cmd :=
  match s.splitOn "," with
  | ["put", k, v, t] => do pure (.put (← k.toNat?) (← v.toNat?) (← parseOpt t))
  | ["del", k] => do pure (.del (← k.toNat?))
  | ["cas", k, e, v] => do pure (.cas (← k.toNat?) (← parseOpt e) (← v.toNat?))
  | ["noop"] => some .noop
  | _ => none

/-- `none` = the snap marker. -/
def parseItem (s : String) : Option (Option Entry) :=
  if s == "snap" then some none
  else match s.splitOn "/" with
    | [t, c] => do pure (some { term := (← t.toNat?), cmd := (← parseCmd c) })
    | _ => none

structure Case where
  eng : Eng
  ret : Nat
  pb : Nat
  adv : Nat
  log : List Entry
  /-- number of entries before the first `snap` marker. -/
  snapAt : Option Nat

def parseCase (line : String) : Option Case :=
  match line.splitOn "|" with
  | [hd, body] => do
    let fs := fields hd
    let eng ← match lookup fs "eng" with
      | some "file" => some Eng.file
      | some "rocks" => some Eng.rocks
      | _ => none
    let ret ← natField fs "ret"
    let pb ← natField fs "pb"
    let adv := (natField fs "adv").getD 0
    let items ← (if body.isEmpty then some [] else (body.splitOn ";").mapM parseItem)
    let log := items.filterMap id
    let snapAt := match items.findIdx? (·.isNone) with
      | some i => some ((items.take i).filterMap id).length
      | none => none
    pure { eng, ret, pb, adv, log, snapAt }
  | _ => none

def showId (i t : Nat) : String := s!"{i}.{t}"

def modelLine (line : String) : String :=
  match parseCase line with
  | none => "bad-case\t-"
  | some c =>
    let a := cleanupAfter (replica c.log c.log.length) c.adv
    match c.snapAt with
    | none => s!"nosnap a={showMap "=" a.kv} ala={showId a.la a.laTerm}\tnosnap"
    | some n =>
      let pb := min c.pb n
      let (snap, inst, b0) := scenario c.eng c.ret c.log n pb
      let b := cleanupAfter b0 c.adv
      let tags :=
        [if snap.labelIdx == n then "label-at-applied" else "label-behind",
         if sameKvB b.kv a.kv then "replay-eq" else "replay-differs",
         if (entryTerm c.eng (replica c.log n) snap.labelIdx).isSome then "entry-term-hit" else "entry-term-none"] ++
        (if (c.log.drop snap.labelIdx).any (fun e => match e.cmd with | .cas .. => true | _ => false)
          then ["cas-in-replayed-suffix"] else []) ++
        (if pb > 0 then ["follower-had-state"] else []) ++
        (if (replica c.log pb).lease.isEmpty then [] else ["follower-had-leases"]) ++
        (if snap.lease.isEmpty then ["snapshot-lease-empty"] else ["snapshot-has-leases"]) ++
        (if sameKvB b.kv b0.kv then [] else ["cleanup-removed-keys"]) ++
        (if snap.labelIdx ≤ pb then ["snapshot-not-ahead"] else ["snapshot-ahead"])
      s!"label={showId snap.labelIdx snap.labelTerm} inst={showMap "=" inst.kv} ila={showId inst.la inst.laTerm} il={showMap "@" inst.lease} sl={showMap "@" snap.lease} b={showMap "=" b.kv} bla={showId b.la b.laTerm} a={showMap "=" a.kv} ala={showId a.la a.laTerm}\t{",".intercalate tags}"

def parseLease (s : String) : Option AMap :=
  if s == "-" then some []
  else (s.splitOn ",").mapM fun kv =>
    match kv.splitOn "@" with
    | [k, v] => do pure ((← k.toNat?), (← v.toNat?))
    | _ => none

def parseMap (s : String) : Option AMap :=
  if s == "-" then some []
  else (s.splitOn ",").mapM fun kv =>
    match kv.splitOn "=" with
    | [k, v] => do pure ((← k.toNat?), (← v.toNat?))
    | _ => none

def parseId (s : String) : Option (Nat × Nat) :=
  match s.splitOn "." with
  | [i, t] => do pure ((← i.toNat?), (← t.toNat?))
  | _ => none

/-- `key=value` tokens where the value may itself contain `=` (split at the first one). -/
def outFields (s : String) : List (String × String) :=
  (s.splitOn " ").filterMap fun tok =>
    match tok.splitOn "=" with
    | k :: v :: rest => some (k, "=".intercalate (v :: rest))
    | _ => none

/-- The C16 monitor on the implementation's output. -/
def monitorC16 (c : Case) (out : String) : String :=
  match c.snapAt with
  | none => "skip"
  | some n =>
    let fs := outFields out
    match (lookup fs "label").bind parseId, (lookup fs "inst").bind parseMap, (lookup fs "b").bind parseMap,
          (lookup fs "bla").bind parseId, (lookup fs "a").bind parseMap, (lookup fs "ala").bind parseId,
          (lookup fs "ila").bind parseId with
    | some (li, lt), some inst, some b, some bla, some a, some ala, some ila =>
      -- the installed node must report the snapshot's label as its applied index
      if ila != (li, lt) then "bad install-last-applied-not-label"
      -- … and its lease table must be the snapshot's (entries still live), not what it held before
      else if (match (lookup fs "il").bind parseLease, (lookup fs "sl").bind parseLease with
               | some il, some sl => !(sameKvB il (reloadLease sl 1000))
               | _, _ => true) then "bad install-lease-not-from-snapshot"
      -- snapshot_replay_eq: install + replay of (label, end] = full apply
      else if !(sameKvB b a) || bla.1 != ala.1 then "bad snapshot-replay-differs"
      -- label_matches_state
      else if li ≥ 1 ∧ (c.log.getD (li - 1) default).term ≠ lt then "bad snapshot-label-term-wrong"
      else if li ≠ n then "bad snapshot-label-behind-state"
      else if !(sameKvB inst (applyAll [] ((c.log.take li).map (·.cmd)))) then "bad snapshot-state-not-at-label"
      else "ok"
    | _, _, _, _, _, _, _ => if out == "panic" then "bad panic" else "bad impl-output-unparseable"

def monitorLine (prop : String) (line : String) : String :=
  match line.splitOn "\t" with
  | [case, out] =>
    match parseCase case with
    | none => "bad-case"
    | some c => if prop == "C16" then monitorC16 c out else "skip"
  | _ => "bad-line"

def main (args : List String) : IO UInt32 := do
  let stdin ← IO.getStdin
  let stdout ← IO.getStdout
  match args with
  | ["model"] => loop stdin stdout modelLine; return 0
  | ["monitor", p] => loop stdin stdout (monitorLine p); return 0
  | _ => IO.eprintln "usage: drv_snap model | monitor <prop>"; return 2
