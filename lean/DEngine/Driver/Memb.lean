import DEngine.Model.Proto
import DEngine.Model.Memb
import DEngine.Model.Commit
open DEngine DEngine.Proto DEngine.Memb DEngine.Commit

namespace DEngine.MembDrv

def parseRole (s : String) : Option Nat :=
  if s == "f" then some 1 else if s == "c" then some 2 else if s == "L" then some 3
  else if s == "l" then some 4 else if s == "u" then some 0 else none

def parseStatus (s : String) : Option Nat :=
  if s == "a" then some 3 else if s == "p" then some 1 else if s == "r" then some 2
  else if s == "u" then some 0 else none

def parseNode (s : String) : Option Node :=
  match s.splitOn ":" with
  | [i, r, st] => do pure { id := ← i.toNat?, role := ← parseRole r, status := ← parseStatus st }
  | _ => none

def parseNodes (s : String) : Option (List Node) :=
  if s.isEmpty || s == "-" then some [] else (s.splitOn ",").mapM parseNode

def parseChange (p : List String) : Option Change :=
  match p with
  | ["add", i, st] => do pure (.add (← i.toNat?) (← parseStatus st))
  | ["rm", i] => do pure (.remove (← i.toNat?))
  | ["pro", i] => do pure (.promote (← i.toNat?))
  | ["bp", is] => do pure (.batchPromote (← natList is) sActive)
  | ["bp", is, st] => do pure (.batchPromote (← natList is) (← parseStatus st))
  | ["br", is] => do pure (.batchRemove (← natList is))
  | ["nil"] => some .nil
  | _ => none

def splitCase (line : String) : String × List String :=
  match line.splitOn "|" with
  | [h] => (h, [])
  | [h, o] => (h, (o.splitOn ";").filter (· ≠ ""))
  | _ => ("", [])

def evs (l : List String) : String := if l.isEmpty then "-" else ",".intercalate l

/-! ## kind `view` -/

def viewRecord (self : Nat) (initialLen : Nat) (v : View) (err : String) : String :=
  s!"M[{showNodes v.nodes}] V[{showIds ((voters self v.nodes).map (·.id))}] P[{showIds ((replicationPeers self v.nodes).map (·.id))}] v{v.ver} s{if isSingleNodeCluster initialLen self v then 1 else 0} e[{if err.isEmpty then "-" else err}]"

def viewRun (self : Nat) (n0 : Nat) : View → List String → List String → List String → List String × List String
  | _, [], recs, tags => (recs.reverse, tags.reverse)
  | v, op :: rest, recs, tags =>
    let p := op.splitOn ":"
    match p with
    | ["rj", i, r] =>
      match i.toNat?, parseRole r with
      | some i, some r =>
        let res := match canRejoin v i r with | none => "rj-ok" | some t => "rj-" ++ t
        viewRun self n0 v rest (viewRecord self n0 v res :: recs) (res :: tags)
      | _, _ => viewRun self n0 v rest (viewRecord self n0 v "bad-op" :: recs) ("bad-op" :: tags)
    | _ =>
      match parseChange p with
      | some c =>
        let r := applyChange v c
        let err := match r.2.1 with | some e => e.tag | none => ""
        viewRun self n0 r.1 rest (viewRecord self n0 r.1 err :: recs) (r.2.2 :: tags)
      | none => viewRun self n0 v rest (viewRecord self n0 v "bad-op" :: recs) ("bad-op" :: tags)

def modelView (fs : List (String × String)) (ops : List String) : Option (String × String) := do
  let self ← natField fs "self"
  let nodes ← parseNodes ((lookup fs "nodes").getD "-")
  let v : View := { nodes := nodes }
  let (recs, tags) := viewRun self nodes.length v ops [viewRecord self nodes.length v ""] []
  pure (" | ".intercalate recs, ",".intercalate tags.eraseDups)

/-! ## kind `cl` -/

def parseClOp (op : String) : ClOp :=
  let r : Option ClOp := match op.splitOn ":" with
    | ["P", is] => do pure (.promote (← natList is))
    | ["J", i, st, ro] => do pure (.join (← i.toNat?) (← parseStatus st) (← parseRole ro))
    | ["S", i] => do pure (.stale (← i.toNat?))
    | ["A", n, k] => do pure (.apply (← n.toNat?) (← k.toNat?))
    | _ => none
  r.getD .bad

def clRecord (c : Cluster) (ev : List String) : String :=
  let g := if c.glog.isEmpty then "-" else "/".intercalate (c.glog.map Change.show)
  let a := ",".intercalate (c.nodes.map fun n => s!"{n.id}:{n.applied}")
  let q := ";".intercalate (c.nodes.map fun n => s!"{n.id}:{match voterSet n with | some vs => showIds vs | none => "-"}")
  s!"g[{g}] a[{a}] q[{q}] e[{evs ev}]"

def clRun : Cluster → List ClOp → List String → List String → List String × List String
  | _, [], recs, tags => (recs.reverse, tags.reverse)
  | c, op :: rest, recs, tags =>
    let r := clStep c op
    clRun r.1 rest (clRecord r.1 r.2.1 :: recs) (r.2.2 :: tags)

def modelCl (fs : List (String × String)) (ops : List String) : Option (String × String) := do
  let lead ← natField fs "lead"
  let nodes ← parseNodes ((lookup fs "nodes").getD "-")
  let c := initCluster lead nodes
  let (recs, tags) := clRun c (ops.map parseClOp) [clRecord c []] []
  pure (" | ".intercalate recs, ",".intercalate tags.eraseDups)

/-! ## kind `rs` -/

def parseRsOp (op : String) : RsOp :=
  if op == "x" then .cmd
  else if op == "restart" then .restart
  else if op.startsWith "c:" then
    match parseChange ((op.drop 2).toString.splitOn ":") with
    | some c => .conf c
    | none => .bad
  else if op.startsWith "commit:" then
    match (op.drop 7).toString.toNat? with
    | some k => .commit k
    | none => .bad
  else .bad

def rsRun : RsNode → List RsOp → List String → List String → List String × List String
  | _, [], recs, tags => (recs.reverse, tags.reverse)
  | s, op :: rest, recs, tags =>
    let r := rsStep s op
    rsRun r.1 rest (rsRecord r.1 :: recs) (r.2 :: tags)

def modelRs (fs : List (String × String)) (ops : List String) : Option (String × String) := do
  let nodes ← parseNodes ((lookup fs "nodes").getD "-")
  let s : RsNode := { initial := nodes, view := { nodes := nodes } }
  let (recs, tags) := rsRun s (ops.map parseRsOp) [rsRecord s] []
  pure (" | ".intercalate recs, ",".intercalate tags.eraseDups)

/-! ## kind `lr` -/

def parseLrOp (op : String) : LearnerOp :=
  let p := op.splitOn ":"
  match p with
  | ["vote", t, _c, _li, _lt] => match t.toNat? with | some t => .vote t | none => .bad
  | ["tick"] => .tick
  | _ => match parseChange p with | some c => .change c | none => .bad

def lrRecord (s : Learner) (g : Option Bool) (ev : List String) : String :=
  let gs := match g with | none => "-" | some true => "1" | some false => "0"
  let m := match find? s.view.nodes s.self with | some me => roleCh me.role | none => "-"
  s!"g{gs} t{s.term} x{if learnerTimerExpired s then 1 else 0} m{m} e[{evs ev}]"

def lrRun : Learner → List LearnerOp → List String → List String
  | _, [], recs => recs.reverse
  | s, op :: rest, recs =>
    let r := learnerStep s op
    lrRun r.1 rest (lrRecord r.1 r.2.1 r.2.2 :: recs)

def modelLr (fs : List (String × String)) (ops : List String) : Option (String × String) := do
  let self ← natField fs "self"
  let t ← natField fs "t"
  let nodes ← parseNodes ((lookup fs "nodes").getD "-")
  let s : Learner := { self := self, term := t, view := { nodes := nodes } }
  let lops := ops.map parseLrOp
  let tags := lops.map fun o => match o with
    | .vote _ => "lr:vote" | .tick => "lr:tick" | .change _ => "lr:change" | .bad => "bad-op"
  pure (" | ".intercalate (lrRun s lops [lrRecord s none []]), ",".intercalate tags.eraseDups)

/-! ## kind `pq` -/

def parsePqOp (op : String) : PqOp :=
  let r : Option PqOp := match op.splitOn ":" with
    | ["P", is] => do pure (.promote (← natList is))
    | ["ok", p, t, m] => do pure (.ack (← p.toNat?) (← t.toNat?) (← m.toNat?))
    | ["fl", d] => do pure (.flushed (← d.toNat?))
    | ["A"] => some .apply
    | _ => none
  r.getD .bad

def pqInit (fs : List (String × String)) : Option PqSt := do
  let t ← natField fs "t"
  let log ← natList ((lookup fs "log").getD "-")
  let nodes ← parseNodes ((lookup fs "nodes").getD "-")
  pure { leader := initLeader t 0 1 log nodes }

def pqRunAll : PqSt → List PqOp → List String → List String → Option (List String × List String)
  | _, [], recs, tags => some (recs.reverse, tags.reverse)
  | s, op :: rest, recs, tags =>
    match pqStep s op with
    | none => none
    | some (s', ev, tag) => pqRunAll s' rest (pqRecord s' ev :: recs) (tag :: tags)

def modelPq (fs : List (String × String)) (ops : List String) : Option (String × String) := do
  let s ← pqInit fs
  match pqRunAll s (ops.map parsePqOp) [pqRecord s []] [] with
  | none => pure ("panic", "panic")
  | some (recs, tags) => pure (" | ".intercalate recs, ",".intercalate tags.eraseDups)

/-! ## kind `jn` -/

def parseJnOp (op : String) : JnOp :=
  let r : Option JnOp := match op.splitOn ":" with
    | ["join", i, ro, st] => do pure (.join (← i.toNat?) (← parseRole ro) (← parseStatus st))
    | ["ok", p, t, m] => do pure (.ack (← p.toNat?) (← t.toNat?) (← m.toNat?))
    | ["fl", d] => do pure (.flushed (← d.toNat?))
    | _ => none
  r.getD .bad

def jnRunAll : JoinSt → List JnOp → List String → List String → Option (List String × List String)
  | _, [], recs, tags => some (recs.reverse, tags.reverse)
  | s, op :: rest, recs, tags =>
    match jnStep s op with
    | none => none
    | some (s', ev, tag) => jnRunAll s' rest (jnRecord s' ev :: recs) (tag :: tags)

def jnInit (fs : List (String × String)) : Option JoinSt := do
  let t ← natField fs "t"
  let log ← natList ((lookup fs "log").getD "-")
  let nodes ← parseNodes ((lookup fs "nodes").getD "-")
  pure { leader := initLeader t 0 1 log nodes }

def modelJn (fs : List (String × String)) (ops : List String) : Option (String × String) := do
  let s ← jnInit fs
  match jnRunAll s (ops.map parseJnOp) [jnRecord s []] [] with
  | none => pure ("panic", "panic")
  | some (recs, tags) => pure (" | ".intercalate recs, ",".intercalate (tags.map ("jn:" ++ ·)).eraseDups)

def modelLine (line : String) : String :=
  let (head, ops) := splitCase line
  let fs := fields head
  let r := match lookup fs "k" with
    | some "view" => modelView fs ops
    | some "cl" => modelCl fs ops
    | some "rs" => modelRs fs ops
    | some "lr" => modelLr fs ops
    | some "jn" => modelJn fs ops
    | some "pq" => modelPq fs ops
    | _ => some ("bad-kind", "-")
  match r with
  | some (o, t) => o ++ "\t" ++ t
  | none => "bad-case\t-"

/-! ## monitors (evaluated on the implementation's records) -/

def bracket (rec : String) (key : String) : Option String :=
  -- value of `key[...]` inside a record (fields separated by spaces, no spaces inside brackets)
  (rec.splitOn " ").findSome? fun tok =>
    if tok.startsWith (key ++ "[") && tok.endsWith "]" then some ((tok.drop (key.length + 1)).dropEnd 1).toString else none

def numField (rec : String) (key : String) : Option Nat :=
  (rec.splitOn " ").findSome? fun tok =>
    if tok.startsWith key then (tok.drop key.length).toString.toNat? else none

def parseIdxMap (s : String) : Option IdxMap :=
  if s == "-" then some [] else
  (s.splitOn ",").mapM fun kv => match kv.splitOn ":" with
    | [k, v] => do pure (← k.toNat?, ← v.toNat?)
    | _ => none

/-- C26 on `pq`: whenever the implementation's commit index moves to `N`, the voters of the
    configuration *in force* (the model's cache: it changes only when a config entry is applied) that
    are known to hold `N` (implementation's own match indexes), leader included, must be a strict
    majority of that configuration; and the implementation's cached voter set must be that configuration. -/
def monitorPq (quorumPass : Bool) : PqSt → List PqOp → Nat → List String → Option String
  | _, [], _, _ => none
  | _, _ :: _, _, [] => some "missing-record"
  | s, op :: rest, preCommit, rec :: more =>
    match pqStep s op with
    | none => some "unexpected-panic-model"
    | some (s', _, _) =>
      match numField rec "c", (bracket rec "m").bind parseIdxMap, (bracket rec "v").bind natList with
      | some c, some m, some v =>
        let inForce := voterPeers s'.leader.targets
        let isApply := match op with | .apply => true | _ => false
        if quorumPass && !isApply && c > preCommit && !s'.leader.singleVoter &&
            holders c inForce m * 2 ≤ inForce.length + 1 then some "commit-quorum-of-unapplied-config"
        else if !quorumPass && v.mergeSort (· ≤ ·) != inForce.mergeSort (· ≤ ·) then some "cached-voters-ahead-of-applied-config"
        else monitorPq quorumPass s' rest c more
      | _, _, _ => some "unparsable-output"

/-- C26: in every observed state, no two nodes' own voter sets admit disjoint majorities -/
def monitorC26 (fs : List (String × String)) (ops : List String) (out : String) : String :=
  if lookup fs "k" == some "pq" then
    match pqInit fs with
    | none => "bad-case"
    | some s =>
      let recs := out.splitOn " | "
      if recs.length != ops.length + 1 then "bad record-count"
      else
        let c0 := (recs.head?.bind fun r => numField r "c").getD 0
        -- first the commit quorum over the whole case (the telling failure), then the cached voter set
        match (monitorPq true s (ops.map parsePqOp) c0 (recs.drop 1)).orElse
              (fun _ => monitorPq false s (ops.map parsePqOp) c0 (recs.drop 1)) with
        | some sig => "bad " ++ sig
        | none => "ok"
  else if lookup fs "k" != some "cl" then "skip"
  else
    let recs := out.splitOn " | "
    let bad := recs.findSome? fun rec =>
      match bracket rec "q" with
      | none => some "unparsable-output"
      | some q =>
        let parsed : Option (List (Option (Nat × List Nat))) := (q.splitOn ";").mapM fun (e : String) =>
          match e.splitOn ":" with
          | [n, vs] =>
            if vs == "-" then some none
            else match n.toNat?, natList vs with
              | some n, some l => some (some (n, l))
              | _, _ => none
          | _ => none
        let sets : Option (List (Nat × List Nat)) := parsed.map fun l => l.filterMap id
        match sets with
        | none => some "unparsable-output"
        | some sets => (disjointPair sets).map fun _ => "disjoint-quorums"
    match bad with
    | some sig => "bad " ++ sig
    | none => "ok"

/-- C28: the member list equals the applied config entries folded over the initial configuration -/
def monitorC28 (fs : List (String × String)) (ops : List String) (out : String) : String :=
  if lookup fs "k" != some "rs" then "skip"
  else match parseNodes ((lookup fs "nodes").getD "-") with
    | none => "bad-case"
    | some initial =>
      let rops := ops.map parseRsOp
      let recs := out.splitOn " | "
      if recs.length != rops.length + 1 then "bad record-count"
      else
        -- entries appended so far at each step
        let rec go (entries : List LogEntry) (ops : List RsOp) (recs : List String) : Option String :=
          match recs with
          | [] => none
          | rec :: more =>
            let verdict : Option String :=
              match bracket rec "M", numField rec "la", numField rec "r" with
              | some m, some la, some r =>
                if m == showNodes (rsReference initial entries la).nodes then none
                else if r > 0 then some "restart-forgets-applied-config"
                else some "membership-not-fold-of-applied-config"
              | _, _, _ => some "unparsable-output"
            match verdict with
            | some v => some v
            | none =>
              match ops with
              | [] => none
              | op :: rest =>
                let entries' := match op with
                  | .conf c => entries ++ [.conf c]
                  | .cmd => entries ++ [.cmd]
                  | _ => entries
                go entries' rest more
        match go [] rops recs with
        | some sig => "bad " ++ sig
        | none => "ok"

/-- C27 on `lr`: never grants, timer never expires, no election events, `BecomeFollower` only once
    the node's own entry is a voter. On `jn`/`cl`: a join is answered only after its entry committed,
    a join of an existing member is rejected. -/
def monitorC27 (fs : List (String × String)) (ops : List String) (out : String) : String :=
  let recs := out.splitOn " | "
  match lookup fs "k" with
  | some "lr" =>
    let bad := recs.findSome? fun rec =>
      let toks := rec.splitOn " "
      if toks.any (· == "g1") then some "learner-granted-vote"
      else if toks.any (· == "x1") then some "learner-election-timer"
      else match bracket rec "e" with
        | none => some "unparsable-output"
        | some e =>
          let es := e.splitOn ","
          if es.any (fun x => x == "BC" || x == "BL") then some "learner-started-election"
          else if es.any (· == "BF") && toks.any (· == "ml") then some "learner-became-voter-without-promotion"
          else none
    match bad with | some s => "bad " ++ s | none => "ok"
  | some "jn" =>
    match parseNodes ((lookup fs "nodes").getD "-") with
    | none => "bad-case"
    | some nodes =>
      if recs.length != ops.length + 1 then "bad record-count" else
      -- join index of the k-th join request = value of `l` in the record of that step (if accepted)
      let steps := ops.zip (recs.drop 1)
      let joinIdx : List (Nat × Nat × Bool) := steps.filterMap fun (op, rec) =>
        match parseJnOp op with
        | .join id _ _ => some (id, (numField rec "l").getD 0, contains nodes id)
        | _ => none
      let bad := recs.findSome? fun rec =>
        match bracket rec "j", numField rec "c" with
        | some j, some c =>
          if j == "-" then none else
          ((j.splitOn ",").zip joinIdx).findSome? fun (e, (id, idx, existing)) =>
            match e.splitOn ":" with
            | [i, st] =>
              if i.toNat? != some id then some "unparsable-output"
              else if existing && st != "err" then some "join-of-existing-member-accepted"
              else if st == "ok" && c < idx then some "join-answered-before-commit"
              else none
            | _ => some "unparsable-output"
        | _, _ => some "unparsable-output"
      match bad with | some s => "bad " ++ s | none => "ok"
  | some "cl" =>
    -- a join request is never answered successfully at proposal time
    if recs.any (fun rec => match bracket rec "e" with | some e => (e.splitOn ",").any (· == "join-answered-ok") | none => false)
    then "bad join-answered-before-commit" else if ops.any (·.startsWith "J:") then "ok" else "skip"
  | _ => "skip"

def monitorLine (prop : String) (line : String) : String :=
  match line.splitOn "\t" with
  | [case, out] =>
    let (head, ops) := splitCase case
    let fs := fields head
    -- a panic of the implementation is judged by the correspondence (the model must predict it)
    if out == "panic" then "skip"
    else if prop == "C26" then monitorC26 fs ops out
    else if prop == "C27" then monitorC27 fs ops out
    else if prop == "C28" then monitorC28 fs ops out
    else "skip"
  | _ => "bad-line"

end DEngine.MembDrv

def main (args : List String) : IO UInt32 := do
  let stdin ← IO.getStdin
  let stdout ← IO.getStdout
  match args with
  | ["model"] => DEngine.Proto.loop stdin stdout DEngine.MembDrv.modelLine; return 0
  | ["monitor", p] => DEngine.Proto.loop stdin stdout (DEngine.MembDrv.monitorLine p); return 0
  | _ => IO.eprintln "usage: drv_memb model | monitor <prop>"; return 2
