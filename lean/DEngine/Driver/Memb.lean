import DEngine.Model.Proto
import DEngine.Model.Memb
def main (_args : List String) : IO UInt32 := do
  IO.eprintln "drv_memb: not built yet"; return 2
