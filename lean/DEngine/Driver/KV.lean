import DEngine.Model.Proto
import DEngine.Model.KV
import DEngine.Model.KVScan
open DEngine DEngine.Proto DEngine.KV

/-! Driver of family `kv` (see harness/src/bin/kv.rs for the case grammar). -/

inductive Op where
  | cmd (c : WCmd)
  | cut
  | index (n : Nat)
  | get (k : Key)
  | multi (ks : List Key)
  | scan (p : Bytes)
  | gapScan (p : Bytes)
  | succ (p : Bytes)
  | roleScan (role : Role) (delta : Nat) (p : Bytes)

def parseOp (t : String) : Option Op :=
  match t.splitOn ":" with
  | ["p", k, v, ttl] => do pure (.cmd (.insert (← hexBytes k) (← hexBytes v) (← ttl.toNat?)))
  | ["d", k] => do pure (.cmd (.delete (← hexBytes k)))
  | ["c", k, e, v] => do
      let ex ← if e == "_" then pure none else (hexBytes e).map some
      pure (.cmd (.cas (← hexBytes k) ex (← hexBytes v)))
  | ["n"] => some (.cmd .noop)
  | ["f"] => some (.cmd .config)
  | ["/"] => some .cut
  | ["i", n] => do pure (.index (← n.toNat?))
  | ["G", k] => do pure (.get (← hexBytes k))
  | ["M", ks] => if ks.isEmpty then some (.multi []) else do pure (.multi (← (ks.splitOn ",").mapM hexBytes))
  | ["S", p] => do pure (.scan (← hexBytes p))
  | ["X", p] => do pure (.gapScan (← hexBytes p))
  | ["U", p] => do pure (.succ (← hexBytes p))
  | ["L", r, d, p] => do
      let role ← match r with
        | "l" => some Role.leader | "f" => some Role.follower | "c" => some Role.candidate | "n" => some Role.learner
        | _ => none
      pure (.roleScan role (← d.toNat?) (← hexBytes p))
  | _ => none

def parseCase (line : String) : Option (List Op) :=
  let body := (line.splitOn "|").getLast?.getD ""
  ((body.splitOn ";").filter (fun t => !t.isEmpty)).mapM parseOp

/-! ### formatting (must equal the harness) -/

def showOpt : Option Val → String
  | none => "_"
  | some v => showHex v

def sortKV (es : List (Key × Val)) : List (Key × Val) := isort (fun a b => lexLe a.1 b.1) es

def showScan (es : List (Key × Val)) (rev : Nat) : String :=
  "S" ++ ",".intercalate (es.map fun kv => showHex kv.1 ++ ":" ++ showHex kv.2) ++ "@" ++ toString rev

def showSucc (p : Bytes) : String :=
  "U" ++ (match prefixSuccessor p with | none => "_" | some u => showHex u)

def showFlags (fs : List Bool) : String :=
  if fs.isEmpty then "-" else String.ofList (fs.map fun b => if b then '1' else '0')

def dedupSorted : List Key → List Key
  | [] => []
  | [a] => [a]
  | a :: b :: rest => if a = b then dedupSorted (b :: rest) else a :: dedupSorted (b :: rest)

def keyUniverse (ops : List Op) : List Key :=
  let ks := ops.flatMap fun
    | .cmd (.insert k _ _) => [k]
    | .cmd (.delete k) => [k]
    | .cmd (.cas k _ _) => [k]
    | .get k => [k]
    | .multi ks => ks
    | _ => []
  dedupSorted (ks.mergeSort (fun a b => lexLe a b))

def showSection (flags : List Bool) (reads : List String) (kv : List (Key × Val)) (len : Nat) (la : Nat × Nat) : String :=
  s!"flags={showFlags flags} reads={if reads.isEmpty then "-" else "/".intercalate reads} " ++
  s!"kv={if kv.isEmpty then "-" else ",".intercalate (kv.map fun p => showHex p.1 ++ ":" ++ showHex p.2)} " ++
  s!"len={len} la={la.1}.{la.2}"

/-! ### running an engine model over the ops -/

structure Run (σ : Type) where
  st : σ
  pending : List Entry := []
  next : Nat := 1
  flags : List Bool := []
  reads : List String := []

/-- Engine interface for the generic runner. -/
structure Engine (σ : Type) where
  apply : σ → List Entry → Option (σ × List Bool)
  get : σ → Key → Option Val
  multi : σ → List Key → List (Option Val)
  scan : σ → Bytes → List (Key × Val) × Nat
  /-- scan with the chunk applied in the engine's gap: new state, flags, scan result -/
  gap : σ → Bytes → List Entry → Option (σ × List Bool × (List (Key × Val) × Nat))
  len : σ → Nat
  la : σ → Nat × Nat

def fileEngine : Engine FileSt where
  apply := fileApplyChunk
  get := fileGet
  multi := fileGetMulti
  scan := fun st p => let r := fileScan st p; (sortKV r.1, r.2)
  gap := fun st p chunk => (fileGapScan st p chunk).map fun r => (r.1, r.2.1, (sortKV r.2.2.1, r.2.2.2))
  len := fun st => st.data.length
  la := fun st => (st.laIndex, st.laTerm)

def rocksEngine : Engine RocksSt where
  apply := rocksApplyChunk
  get := rocksGet
  multi := rocksGetMulti
  scan := rocksScan
  gap := rocksGapScan
  len := fun st => st.db.length
  la := fun st => (st.laIndex, st.laTerm)

def flush {σ} (E : Engine σ) (r : Run σ) : Option (Run σ) :=
  if r.pending.isEmpty then some r else
  match E.apply r.st r.pending with
  | none => none
  | some (st', fl) => some { r with st := st', pending := [], flags := r.flags ++ fl }

def stepOp {σ} (E : Engine σ) (r : Run σ) : Op → Option (Run σ)
  | .cmd c => some { r with pending := r.pending ++ [⟨r.next, 1, decodeCmd c⟩], next := r.next + 1 }
  | .index n => some { r with next := n }
  | .cut => flush E r
  | .get k => do
      let r ← flush E r
      pure { r with reads := r.reads ++ ["G" ++ showOpt (E.get r.st k)] }
  | .multi ks => do
      let r ← flush E r
      pure { r with reads := r.reads ++ ["M" ++ ",".intercalate ((E.multi r.st ks).map showOpt)] }
  | .scan p => do
      let r ← flush E r
      let s := E.scan r.st p
      pure { r with reads := r.reads ++ [showScan s.1 s.2] }
  | .succ p => some { r with reads := r.reads ++ [showSucc p] }
  | .roleScan role delta p => do
      let r ← flush E r
      let item := match roleScan role ((E.la r.st).1 + delta) (E.scan r.st p) with
        | some s => showScan s.1 s.2
        | none => "Enot-leader"
      pure { r with reads := r.reads ++ [item] }
  | .gapScan p =>
      match E.gap r.st p r.pending with
      | none => none
      | some (st', fl, s) =>
        some { r with st := st', pending := [], flags := r.flags ++ fl, reads := r.reads ++ [showScan s.1 s.2] }

def runEngine {σ} (E : Engine σ) (init : σ) (ops : List Op) : String :=
  match ops.foldlM (stepOp E) ({ st := init } : Run σ) >>= flush E with
  | none => "panic"
  | some r =>
    let kv := (keyUniverse ops).filterMap fun k => (E.get r.st k).map fun v => (k, v)
    showSection r.flags r.reads kv (E.len r.st) (E.la r.st)

/-! ### branch tags -/

def AStore := List (Key × Val)
def aget (s : List (Key × Val)) (k : Key) : Option Val := (s.find? (·.1 == k)).map (·.2)
def aset (s : List (Key × Val)) (k : Key) (v : Option Val) : List (Key × Val) :=
  let s' := s.filter (fun p => !(p.1 == k))
  match v with
  | some x => (k, x) :: s'
  | none => s'

structure TagSt where
  store : List (Key × Val) := []
  touched : List Key := []     -- keys written earlier in the current chunk
  chunkLen : Nat := 0
  chunks : Nat := 0
  tags : List String := []

def addTag (t : TagSt) (s : String) : TagSt := if t.tags.contains s then t else { t with tags := t.tags ++ [s] }

def endChunk (t : TagSt) : TagSt :=
  if t.chunkLen == 0 then t else
  let t := { t with touched := [], chunkLen := 0, chunks := t.chunks + 1 }
  if t.chunks ≥ 2 then addTag t "multi-chunk" else t

def tagOp (t : TagSt) : Op → TagSt
  | .cmd c =>
    let t := { t with chunkLen := t.chunkLen + 1 }
    match decodeCmd c with
    | .noop => addTag t (if c == .config then "config" else "noop")
    | .put k v ttl =>
      let t := addTag t "put"
      let t := if ttl.isSome then addTag t "ttl" else t
      let t := if k.isEmpty then addTag t "empty-key" else t
      let t := if v.isEmpty then addTag t "empty-val" else t
      { t with store := aset t.store k (some v), touched := k :: t.touched }
    | .del k => { (addTag t (if (aget t.store k).isSome then "del-present" else "del-absent")) with
                  store := aset t.store k none, touched := k :: t.touched }
    | .cas k e v =>
      let cur := aget t.store k
      let t := addTag t (if t.touched.contains k then "cas-sees-chunk-write" else "cas-sees-base")
      let t := addTag t (match cur, e with
        | none, none => "cas-ok-absent"
        | some c, some x => if c == x then "cas-ok-value" else "cas-fail-mismatch"
        | none, some _ => "cas-fail-absent"
        | some _, none => "cas-fail-present")
      if cur == e then { t with store := aset t.store k (some v), touched := k :: t.touched } else t
  | .cut => endChunk t
  | .index _ => addTag t "explicit-index"
  | .get _ => addTag (endChunk t) "get"
  | .multi ks =>
    let t := addTag (endChunk t) "get-multi"
    if ks.eraseDups.length < ks.length then addTag t "get-multi-dup" else t
  | .scan p =>
    let t := addTag (endChunk t) "scan"
    let t := if p.isEmpty then addTag t "scan-empty-prefix" else t
    if p.getLast? == some 0xFF then addTag t "scan-ff-prefix" else t
  | .roleScan role delta p =>
    let t := addTag (endChunk t) (if role == .leader then (if delta == 0 then "leader-scan-caught-up" else "leader-scan-commit-ahead")
                                  else "non-leader-scan")
    if p.isEmpty then addTag t "scan-empty-prefix" else t
  | .succ p => addTag t (match prefixSuccessor p with
      | none => "succ-none"
      | some _ => if p.getLast? == some 0xFF then "succ-carry" else "succ-plain")
  | .gapScan p =>
    let t := addTag t (if t.chunkLen == 0 then "gap-scan-idle" else "gap-scan-with-apply")
    let t := if p.isEmpty then addTag t "scan-empty-prefix" else t
    endChunk t

def tagsOf (ops : List Op) (out : String) : String :=
  let t := endChunk (ops.foldl tagOp {})
  let tags := if (out.splitOn "panic").length > 1 then t.tags ++ ["panic-unordered"] else t.tags
  if tags.isEmpty then "-" else ",".intercalate tags

def modelLine (line : String) : String :=
  match parseCase line with
  | none => "bad-case\t-"
  | some ops =>
    let out := "file{" ++ runEngine fileEngine FileSt.init ops ++ "} rocks{" ++ runEngine rocksEngine RocksSt.init ops ++ "}"
    out ++ "\t" ++ tagsOf ops out

/-! ### monitors: the specification evaluated against the IMPLEMENTATION's output -/

/-- Reference evaluation of a case: commands go through `refStep` on an association-list store
    (chunk boundaries are ignored — that is the claim), reads are answered from the reference store at
    that point, `revision` = index of the last applied entry. -/
structure RefRun where
  store : List (Key × Val) := []
  next : Nat := 1
  last : Nat × Nat := (0, 0)
  flags : List Bool := []
  reads : List String := []
  lastInChunk : Option Nat := none
  unordered : Bool := false
  hasGap : Bool := false
  /-- store / last index at the last flush point (what a gap scan may still see) -/
  fStore : List (Key × Val) := []
  fLast : Nat := 0
  /-- per scan op: (gap?, prefix, entries before the pending chunk, revision before, entries after, revision after) -/
  scans : List (Bool × Bytes × String × Nat × String × Nat) := []

def scanBody (es : List (Key × Val)) : String :=
  ",".intercalate ((sortKV es).map fun kv => showHex kv.1 ++ ":" ++ showHex kv.2)

def refOp (emptyPrefixWild : Bool) (r : RefRun) : Op → RefRun
  | .cmd c =>
    let r := { r with unordered := r.unordered || outOfOrder r.lastInChunk r.next,
                      lastInChunk := some r.next, last := (r.next, 1), next := r.next + 1 }
    match decodeCmd c with
    | .noop => { r with flags := r.flags ++ [true] }
    | .put k v _ => { r with store := aset r.store k (some v), flags := r.flags ++ [true] }
    | .del k => { r with store := aset r.store k none, flags := r.flags ++ [true] }
    | .cas k e v =>
      if aget r.store k == e then { r with store := aset r.store k (some v), flags := r.flags ++ [true] }
      else { r with flags := r.flags ++ [false] }
  | .index n => { r with next := n }
  | .cut => { r with lastInChunk := none, fStore := r.store, fLast := r.last.1 }
  | .get k => { r with lastInChunk := none, fStore := r.store, fLast := r.last.1,
                       reads := r.reads ++ ["G" ++ showOpt (aget r.store k)] }
  | .multi ks => { r with lastInChunk := none, fStore := r.store, fLast := r.last.1,
                          reads := r.reads ++ ["M" ++ ",".intercalate (ks.map fun k => showOpt (aget r.store k))] }
  | .scan p =>
    let es := scanBody (r.store.filter fun kv => startsWith kv.1 p)
    { r with lastInChunk := none, fStore := r.store, fLast := r.last.1,
             scans := r.scans ++ [(false, p, es, r.last.1, es, r.last.1)],
             reads := r.reads ++ [if emptyPrefixWild && p.isEmpty then "S*" else "S" ++ es ++ "@" ++ toString r.last.1] }
  | .succ p => { r with reads := r.reads ++ [showSucc p] }
  | .roleScan role _ p =>
    let es := scanBody (r.store.filter fun kv => startsWith kv.1 p)
    if role == .leader then
      { r with lastInChunk := none, fStore := r.store, fLast := r.last.1,
               scans := r.scans ++ [(false, p, es, r.last.1, es, r.last.1)],
               reads := r.reads ++ [if emptyPrefixWild && p.isEmpty then "S*" else "S" ++ es ++ "@" ++ toString r.last.1] }
    else { r with lastInChunk := none, fStore := r.store, fLast := r.last.1, reads := r.reads ++ ["Enot-leader"] }
  | .gapScan p =>
    let e0 := scanBody (r.fStore.filter fun kv => startsWith kv.1 p)
    let e1 := scanBody (r.store.filter fun kv => startsWith kv.1 p)
    { r with hasGap := true, lastInChunk := none, fStore := r.store, fLast := r.last.1,
             scans := r.scans ++ [(true, p, e0, r.fLast, e1, r.last.1)],
             reads := r.reads ++ ["X"] }

def refSection (ops : List Op) (wild : Bool) : RefRun × String :=
  let r := ops.foldl (refOp wild) {}
  let kv := (keyUniverse ops).filterMap fun k => (aget r.store k).map fun v => (k, v)
  (r, showSection r.flags r.reads kv r.store.length r.last)

/-- Replace empty-prefix scan results in an implementation section by `S*` (C22 leaves them to C25). -/
def wildEmptyScans (ops : List Op) (sec : String) : String :=
  let fs := fields sec
  match lookup fs "reads" with
  | none => sec
  | some rd =>
    if rd == "-" then sec else
    let readOps := ops.filter fun | .get _ | .multi _ | .scan _ | .gapScan _ | .succ _ | .roleScan _ _ _ => true | _ => false
    let items := rd.splitOn "/"
    if items.length != readOps.length then sec else
    let items' := (items.zip readOps).map fun (it, op) =>
      match op with
      | .scan p => if p.isEmpty then "S*" else it
      | .roleScan role _ p => if p.isEmpty && role == .leader then "S*" else it
      | _ => it
    " ".intercalate (fs.map fun (k, v) => k ++ "=" ++ (if k == "reads" then "/".intercalate items' else v))

def splitImpl (out : String) : Option (String × String) :=
  match out.splitOn "} rocks{" with
  | [a, b] =>
    match a.splitOn "file{" with
    | ["", f] => if b.endsWith "}" then some (f, (b.dropEnd 1).toString) else none
    | _ => none
  | _ => none

def firstDiff (what : String) (a b : String) : String :=
  let fa := fields a
  let fb := fields b
  match ["flags", "reads", "kv", "len", "la"].find? (fun k => lookup fa k != lookup fb k) with
  | some k => what ++ "-" ++ k
  | none => what ++ "-format"

def monitorC22 (ops : List Op) (out : String) : String :=
  match splitImpl out with
  | none => "bad output-format"
  | some (f, r) =>
    let (rr, expected) := refSection ops true
    if rr.hasGap then "skip" else
    if rr.unordered then "skip" else
    let f' := wildEmptyScans ops f
    let r' := wildEmptyScans ops r
    if f' != expected then "bad " ++ firstDiff "file" f' expected
    else if r' != expected then "bad " ++ firstDiff "rocks" r' expected
    else "ok"

/-- scan items (`S…@rev`) of an implementation section, in op order, paired with the reference expectations -/
def scanItems (ops : List Op) (sec : String) : Option (List String) :=
  match lookup (fields sec) "reads" with
  | none => none
  | some rd =>
    let readOps := ops.filter fun | .get _ | .multi _ | .scan _ | .gapScan _ | .succ _ | .roleScan _ _ _ => true | _ => false
    let items := if rd == "-" then [] else rd.splitOn "/"
    if items.length != readOps.length then none else
    some ((items.zip readOps).filterMap fun (it, op) =>
      match op with
      | .scan _ => some it
      | .gapScan _ => some it
      | .roleScan role _ _ => if role == .leader then some it else none
      | _ => none)

/-- C25 for one scan result of one engine.
    sequential scan: exactly the prefixed bindings of the reference store, revision = last applied index;
    scan racing with an apply: the data must never be behind the revision (everything applied up to the
    reported revision is in the entries); data ahead of the revision is accepted (see `resync_converges`). -/
def judgeScan (eng : String) (item : String) (e : Bool × Bytes × String × Nat × String × Nat) : Option String :=
  let (gap, p, e0, r0, e1, r1) := e
  let mk (es : String) (r : Nat) := "S" ++ es ++ "@" ++ toString r
  if !gap then
    if item == mk e1 r1 then none
    else if (match item.splitOn "@" with
             | [body, rv] => body == "S" ++ e1 && (rv.toNat?.getD 0) > r1
             | _ => false) then some (eng ++ "-scan-revision-ahead-of-data")
    else if p.isEmpty && item == mk "" r1 && e1 != "" then some (eng ++ "-empty-prefix-scan-returns-nothing")
    else some (eng ++ "-scan-wrong")
  else
    if item == mk e0 r0 || item == mk e1 r1 || item == mk e1 r0 then none
    else if item == mk e0 r1 then some (eng ++ "-scan-data-behind-revision")
    else if p.isEmpty && (item == mk "" r0 || item == mk "" r1) then some (eng ++ "-empty-prefix-scan-returns-nothing")
    else some (eng ++ "-scan-wrong")

def monitorC25 (ops : List Op) (out : String) : String :=
  match splitImpl out with
  | none => "bad output-format"
  | some (f, r) =>
    let (rr, _) := refSection ops false
    if rr.unordered then "skip" else
    if rr.scans.isEmpty then "skip" else
    match scanItems ops f, scanItems ops r with
    | some fi, some ri =>
      if fi.length != rr.scans.length || ri.length != rr.scans.length then "bad output-format" else
      let fbad := (fi.zip rr.scans).filterMap fun (it, e) => judgeScan "file" it e
      let rbad := (ri.zip rr.scans).filterMap fun (it, e) => judgeScan "rocks" it e
      match fbad ++ rbad with
      | [] => "ok"
      | b :: _ => "bad " ++ b
    | _, _ => "bad output-format"

def monitorLine (prop : String) (line : String) : String :=
  match line.splitOn "\t" with
  | [case, out] =>
    match parseCase case with
    | none => "bad-case"
    | some ops =>
      if prop == "C22" then monitorC22 ops out
      else if prop == "C25" then monitorC25 ops out
      else "skip"
  | _ => "bad-line"

def main (args : List String) : IO UInt32 := do
  let stdin ← IO.getStdin
  let stdout ← IO.getStdout
  match args with
  | ["model"] => loop stdin stdout modelLine; return 0
  | ["monitor", p] => loop stdin stdout (monitorLine p); return 0
  | _ => IO.eprintln "usage: drv_kv model | monitor <prop>"; return 2
