-- This module serves as the root of the `DEngine` library.
-- Import modules here that should be built as part of the library.
import DEngine.Basic
